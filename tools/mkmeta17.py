#!/usr/bin/env python3
# Writes seeded/r17-*/meta.json (round 17) from the table below and the first-run logs kept next to each change.
import glob
import json
import os

origin = "round 17: independent sub-agent given only the property text and a scratch git worktree of /repo; brief: a = a change that cites a specification (RFC 5280 / RFC 8259 / RFC 9110, Intel PCS API, DCAP quote format, kernel ABI document) and applies it with one mistake, b = the sub-agent's best shot at a change a reviewer would wave through"
# id: (change, needs, what was added after a miss, check that detects it when it was missed at the first run)
info = {
    'C01-a': ("the two reserved header words are emitted as zero instead of being carried, so they leave the signed bytes", "an edit confined to header bytes 8..11 of a genuine quote", "", None),
    'C01-b': ("zero padding of the QE report data demanded only when the QE vendor id is Intel's", "re-signed QE report with non-zero padding AND a non-Intel vendor id", "", None),
    'C02-a': ("root-of-trust bundle lists consisting of empty strings are treated as unset (embedded root) instead of an error / empty pool", "RootOfTrust with cabundles / cabundle_paths = [\"\"]", "", None),
    'C02-b': ("typed error for 'not anchored in a trusted root': every other x509 error of the leaf is dropped", "hostile PKI whose leaf carries an unhandled critical extension", "", None),
    'C03-a': ("collateral signatures checked over the white-space-free body", "signed member with white space inserted after signing", "", None),
    'C03-b': ("signed member decoded over the loosely decoded response (merge)", "signed tcbInfo omitting a member the verdict needs + unsigned look-alike", "", None),
    'C04-a': ("a module level lowers the result only for statuses on a list that leaves some out", "TEE_TCB_SVN[1] != 0, platform level UpToDate, matching module level with a status outside the list (or without one)", "", None),
    'C04-b': ("one sentinel error per status through a table: a level without tcbStatus maps to no error", "first matching level lacking the tcbStatus member", "", None),
    'C05-a': ("PCK CRL authenticated with the issuer chain it was served with instead of the quote's intermediate", "re-keyed CA of the same name under the trusted root serving its own CRL", "", None),
    'C05-b': ("CRL entries with an unhandled critical entry extension are not applied", "revoking entry with a critical certificateIssuer / private entry extension", "new class revoked-with-entry-extension (8 extension sets incl. critical certificateIssuer and private OIDs x PCK leaf / intermediate / TCB signer)", "C05"),
    'C06-a': ("validity of the root found in the quote left to the trust store", "look-alike earlier issue of the root (same key) in the quote, past its notAfter", "", None),
    'C06-b': ("issuer chain shared by TCB Info and QE Identity validated once, at the TCB Info's time", "shared signer AND Now.QeIdentity outside the signer's validity while Now.TcbInfo is inside", "", None),
    'C07-a': ("signed enclaveIdentity member decoded over the loosely decoded response", "unsigned look-alike member + signed member omitting it", "", None),
    'C07-b': ("SVN members accepted in every spelling of a JSON number, fractions truncated", "identity level whose isvsvn has a non-zero fraction, QE ISVSVN equal to its integer part", "new class level-isvsvn-with-a-fraction (5.5, 5.000001, 5.9e0, 55e-1 ... against QE ISVSVN at / around the integer part): the reference refuses a document whose SVN is not an integer", "C07"),
    'C08-a': ("TEE_TCB_SVN minimum compared the way TCB level matching does: components 0 and 1 skipped when the major version is non-zero", "TEE_TCB_SVN[1] != 0 and a minimum whose component 0 or 1 is above the quote's", "", None),
    'C08-b': ("allow-list lookup by one scan over the concatenated entries", "MR_TD straddling the seam of two adjacent entries", "", None),
    'C09-a': ("raw quotes of 2 MiB or more refused (the 2 GiB protobuf limit, with the wrong constant)", "input of 2 MiB or more", "", None),
    'C09-b': ("zero fill up to the next 4 KiB boundary dropped from ExtraBytes", "input length a multiple of 4096, zero tail shorter than 4096", "new corpus class zero-padded (pads to multiples of 16 ... 65536, one short / one over, zero and non-zero fill)", "C09"),
    'C10-a': ("SEAM attributes held against the matching module identity; the size check stays on tdxModule's mask, so a longer identity mask indexes out of range", "TEE_TCB_SVN[1] > 0 and a matching module identity whose attributesMask is longer than 8 bytes", "", None),
    'C10-b': ("cRLNumber checked: a CRL without the extension dereferences nil", "correctly signed CRL without cRLNumber", "", None),
    'C11-a': ("collateral signatures checked over the compacted body", "honest collateral whose signer signed a body containing white space", "new class honest-collateral-signed-with-white-space (indented / spaced / CR LF bodies signed as they are)", "C11"),
    'C11-b': ("negative padding length guarded by refusing an empty QE auth data in the message form", "QE authentication data of length 0 through the message entry point", "", None),
    'C12-a': ("CA of the PCK CRL taken from the certificate's CRL distribution point", "PCK certificate whose distribution point names the other CA", "", None),
    'C12-b': ("default time set kept out of Options.Now: computed once per options value", "Now nil, one options value used across an expiry", "", None),
    'C13-a': ("TCB sequence decoded by position", "PCK certificate whose TCB elements are in another order", "", None),
    'C13-b': ("findMatchingExtension rewritten: index 0 means not found", "SGX extension as the certificate's first extension", "new field ExtPos of the certificate generator + class sgx-extension-position (every index of 6)", "C13"),
    'C14-a': ("a policy without qe_vendor_id expects Intel's QE", "policy without the field AND a quote with another vendor id", "", None),
    'C14-b': ("TEE TCB minimum: components 0 and 1 ordered as one (major, minor) version", "quote byte 1 above the minimum's, quote byte 0 below the minimum's", "new pair class tee-tcb-svn-components-0-and-1 (C14) / min-tee-tcb-svn-components-0-and-1 (C08): opposite perturbations of the pair", "C14"),
    'C15-a': ("GetQuote drops zero padding behind the quote", "device buffer whose surplus behind the signed data is all zero", "", None),
    'C15-b': ("OutLen bound read back from the request structure the device could write to", "a Device whose Ioctl writes the Length field of the request", "new class device-writes-the-request-structure (8 lengths x 7 OutLen values)", "C15"),
    'C16-a': ("Quote Signature Data Len fixed up in the caller's message", "message whose SignedDataSize differs from its serialised signed data", "", None),
    'C16-b': ("embedded root parsed on first use, without synchronisation", "first default-root verifications of a process overlap", "", None),
    'C17-a': ("TCG mapping of the register checked: an empty mapping (RTMR 3) is refused once the entry is bound", "second request on index 3", "", None),
    'C17-b': ("digest equal to SHA-384 of the empty input refused", "that digest", "", None),
    'C18-a': ("never-extended (all-zero) RTMRs left out of the replay bank", "re-signed quote with an all-zero RTMR the log has events for", "", None),
    'C18-b': ("event log replayed before the quote is verified: replay errors come first, state built from an unverified quote", "forged quote with a log that does not replay / with one that does", "", None),
    'C19-a': ("-check_crl / -get_collateral become value-less boolean flags: '-flag value' leaves the value as a positional argument", "the flag given with its value as a separate argument", "", None),
    'C19-b': ("the tool fixes its own verification instant and leaves Now.RootCaCrl zero", "tool run with collateral + CRL checks on and a stale Root CA CRL", "four more in-process PCS variants serving stale collateral (Root CA CRL / PCK CRL / TCB Info / QE Identity) with and without -check_crl", "C19"),
    'C20-a': ("Retry-After honoured beyond the maximum retry delay", "failing status with Retry-After above the cap through the production getter", "", None),
    'C20-b': ("a success whose Content-Length header exceeds the body is retried", "successful response of the wrapped getter carrying such a header", "retry cases whose success carries a Content-Length header that is not the body's length (after 0 / 1 failures, zero budget)", "C20"),
}
root = os.path.join(os.path.dirname(os.path.abspath(__file__)), '..', 'seeded')
for k, (chg, needs, note, chk) in info.items():
    d = os.path.join(root, 'r17-' + k)
    prop = k.split('-')[0]
    demos = sorted(os.path.basename(f) for f in glob.glob(d + '/*_test.go'))
    det_first = 'VIOLATION' in open(d + '/first-run.log').read()
    assert det_first == (chk is None), (k, det_first)
    check = chk or prop
    m = {"id": "r17-" + k, "breaks_property": prop, "change": chg, "needs_to_manifest": needs, "origin": origin, "demonstration": demos,
         "confirmed": {"command": "tools/mutant.sh confirm seeded/r17-" + k, "compiles": True, "existing_suite_passes_with_change": True, "demo_fails_with_change": True, "demo_passes_without_change": True},
         "detected_at_first_run": det_first,
         "detected_by": {"command": "tools/mutant.sh detect seeded/r17-%s/patch.diff %s" % (k, check), "check": check,
                         "target_check_quick": "VIOLATION (exit 1)" if check == prop else "no violation (exit 0)"}}
    if check != prop:
        m["detected_by"]["other_check_quick"] = check + ": VIOLATION (exit 1)"
    if note:
        m["detected_by"]["after_strengthening"] = note
    json.dump(m, open(d + '/meta.json', 'w'), indent=1)
print(len(info))
