#!/usr/bin/env python3
# Writes seeded/r21-*/meta.json (round 21, one change per property) from the table below and the first-run logs kept next to each change.
import glob
import json
import os

origin = "round 21: independent sub-agent given only the property text and a scratch git worktree of /repo; brief: ONE change per property, best shot against a checker described to it, told what had survived rounds 19 and 20 and asked for yet another kind"
# id: (change, needs, what was added after a miss (or why it stays undetected), check that detects it when it was missed at the first run; 'NONE' = recorded as not detected)
info = {
    'C01-a': ("options.chain assigned before the collateral is fetched and read back afterwards", "a getter that, while serving, verifies another quote through the same options value", "new class reentrant-getter (props/common.go reentrantCollaborators): must-reject quotes (QE report signed by another key; the acceptable quote under an untrusted look-alike chain; a quote entirely from an untrusted PKI) verified with a getter that verifies an acceptable quote through the same options value during its first request", "C01"),
    'C02-a': ("x509 UnhandledCriticalExtension ignored when the SGX extension is the only one: path building is skipped with it", "foreign PKI whose leaf marks the SGX extension critical", "", None),
    'C03-a': ("member returned as a view into the getter's buffer", "getter re-using its receive buffer + forged member with the genuine bytes fetched over it", "", None),
    'C04-a': ("TDX components typed 'TDX Module' are skipped in the comparison", "a component at index >= 2 with that type text and an SVN above the platform's", "the descriptive category / type texts of the components vary per level over six layouts (Intel's, every component 'TDX Module', none, odd ones, swapped) in every C04 case", "C04"),
    'C05-a': ("zero time.Time as 'not listed': an entry dated year 1 is not revoked", "revoking entry whose date is 0001-01-01T00:00:00Z", "", None),
    'C06-a': ("first-to-expire of a group computed against element 0", "PCK CRL outliving its issuer chain with the root outliving the signer", "", None),
    'C07-a': ("new option AcceptedTcbStatuses (a list of status names) applied to the QE identity too", "the new option set to [OutOfDate] and a QE level of that status", "unknownOptionMembers (props/common.go): exported members of verify.Options the workload does not know (found by reflection; none on the unchanged tree), each alone and all together set to a permissive-looking value of their kind (true, the largest number, every PCS status name for strings / lists / sets of strings, bytes, a non-nil pointer), against QE identities whose matching level has each non-UpToDate status and one naming another MRSIGNER: still refused", "C07"),
    'C08-a': ("allow-lists above 64 entries matched through a map keyed by [48]byte: short entries are zero-padded", "more than 64 entries, a short entry, MR_TD = entry followed by zeros", "new class mr-td-ending-in-zeros: MR_TD with a zero tail against lists of 2 ... 1001 entries holding its prefix / the value followed by zeros, first or last", "C08"),
    'C09-a': ("nil PckCertChain of a zero-length chain refused by the shared validity predicate", "message with a zero-length chain whose member is nil", "", None),
    'C10-a': ("cRLNumber range check without a nil check", "correctly signed CRL without cRLNumber", "", None),
    'C11-a': ("authority key identifier must equal the parent's subject key identifier", "re-issued root with another subject key identifier, intermediate issued under the first issue", "a third of the re-issued roots of honest-reissued-root-in-quote derive their subject key identifier another way (20 / 32 / 8 random bytes)", "C11"),
    'C12-a': ("per-call state written to the options value before the getter is called", "a getter that re-enters the library with the same options value", "new class reentrant-getter (see C01-a)", "C12"),
    'C13-a': ("CPUSVN: nested unwrap tried before the size check", "CPUSVN beginning 04 0e", "", None),
    'C14-a': ("membership by bytes.Contains over the concatenated entries", "MR_TD spanning the end of one entry and the start of the next", "", "C08"),
    'C15-a': ("ABI copy-back slices by the device's OutLen", "oversized OutLen through a device that goes through the ABI conversion", "", None),
    'C16-a': ("unknown protobuf fields discarded in place from the caller's message", "message carrying fields its schema does not define", "the wire-decoded form of the snapshot subjects now carries unknown fields at every nesting level (proto.Equal against the clone taken before the call sees them)", "C16"),
    'C17-a': ("per-client mutex in a sync.Map keyed by the client interface value", "client passed by value with unhashable fields", "", None),
    'C18-a': ("event log clamped to the table's log area minimum length", "flipped RTMR + table whose length field ends after the log's first record", "new classes rtmrN-bitflip-and-an-edited-table: length / address fields of the ACPI table set to 0 ... 300, the log's length and neighbours, huge values, both loaders", "C18"),
    'C19-a': ("numeric flags parsed with base 0", "-minimum_*_svn=010", "", None),
    'C20-a': ("a wrapped RetryHTTPSGetter is unwrapped and its inner getter retried directly", "RetryHTTPSGetter around a RetryHTTPSGetter with other settings", "new class retry/wrapped-getter-is-a-retry-getter (5 combinations of inner / outer settings over an endpoint failing k times)", "C20"),
}
root = os.path.join(os.path.dirname(os.path.abspath(__file__)), '..', 'seeded')
for k, (chg, needs, note, chk) in info.items():
    d = os.path.join(root, 'r21-' + k)
    prop = k.split('-')[0]
    demos = sorted(os.path.basename(f) for f in glob.glob(d + '/*_test.go'))
    det_first = 'VIOLATION' in open(d + '/first-run.log').read()
    assert det_first == (chk is None), (k, det_first)
    if chk == 'NONE':
        m = {"id": "r21-" + k, "breaks_property": prop, "change": chg, "needs_to_manifest": needs, "origin": origin, "demonstration": demos,
             "confirmed": {"command": "tools/mutant.sh confirm seeded/r21-" + k, "compiles": True, "existing_suite_passes_with_change": True, "demo_fails_with_change": True, "demo_passes_without_change": True},
             "detected_at_first_run": False, "detected_by": {"not_detected": note}}
        json.dump(m, open(d + '/meta.json', 'w'), indent=1)
        continue
    check = chk or prop
    m = {"id": "r21-" + k, "breaks_property": prop, "change": chg, "needs_to_manifest": needs, "origin": origin, "demonstration": demos,
         "confirmed": {"command": "tools/mutant.sh confirm seeded/r21-" + k, "compiles": True, "existing_suite_passes_with_change": True, "demo_fails_with_change": True, "demo_passes_without_change": True},
         "detected_at_first_run": det_first,
         "detected_by": {"command": "tools/mutant.sh detect seeded/r21-%s/patch.diff %s" % (k, check), "check": check,
                         "target_check_quick": "VIOLATION (exit 1)" if check == prop else "no violation (exit 0)"}}
    if check != prop:
        m["detected_by"]["other_check_quick"] = check + ": VIOLATION (exit 1)"
    if note:
        m["detected_by"]["after_strengthening"] = note
    json.dump(m, open(d + '/meta.json', 'w'), indent=1)
print(len(info))
