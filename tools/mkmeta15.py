#!/usr/bin/env python3
# Writes seeded/r15-*/meta.json (round 15) from the table below and the first-run logs kept next to each change.
import glob
import json
import os

origin = "round 15: independent sub-agent given only the property text and a scratch git worktree of /repo; brief: a = a change far from the property's own code (no function named in the anchors touched), b = an error-path, clean-up or diagnostics change; each with one mistake"
# id: (change, needs, what was added after a miss, check that detects it when it was missed at the first run)
info = {
    'C01-a': ("abi range checks use a constant defined as 1<<16 with '>' : exactly 65536 passes", "message whose QE ISVSVN / ProdID is 65536", "", None),
    'C01-b': ("hash-binding failure kept in qeErr but combined with the wrong variable", "rebound attestation key with collateral on", "", None),
    'C02-a': ("check tool: -trusted_roots accepts directories; zero files found is not reported", "directory without *.pem as the only root + Intel-rooted quote", "C19 bundle runs with empty directories / directories of .crt files", "C19"),
    'C02-b': ("typed expiry sentinel attached with a nil-returning wrapper", "verification time before a foreign chain's notBefore", "", None),
    'C03-a': ("SignatureToDER accepts inputs LONGER than 64 bytes", "genuine collateral signature with whole bytes appended", "", None),
    'C03-b': ("x509 'Expired' on the signer logged and skipped (covers not-yet-valid; no path was built)", "foreign signer not yet valid", "", None),
    'C04-a': ("signed member decoded into the already-filled struct", "unsigned look-alike member supplying what the signed one lacks", "(caught by C03's decorated-document classes, whose clause it is)", "C03"),
    'C04-b': ("json.UnmarshalTypeError turned into a warning: mistyped / overflowing thresholds stay 0", "threshold above the platform written as a quoted number or out of range", "new class threshold-not-a-number-in-range (13 spellings of pcesvn / svn in the first, UpToDate level)", "C04"),
    'C05-a': ("check tool: -trusted_roots builds a fresh RootOfTrust, dropping check_crl / get_collateral of the config", "config with check_crl + -trusted_roots flag", "C19 network runs: config says collateral+crl and the roots come by flag (honest / CRL endpoints down / OutOfDate / proxy dead / crl without collateral)", "C19"),
    'C05-b': ("CRL of a CA without cRLSign: constraint error downgraded to a warning before any signature check", "CA without cRLSign + CRL signed by another key", "", None),
    'C06-a': ("pcs timestamps parsed by hand: numeric zone offsets matched but not applied", "nextUpdate spelled with a positive offset, time inside the offset", "new class next-update-spelling (6 RFC 3339 spellings x 7 instants up to 10 h around the boundary)", "C06"),
    'C06-b': ("default time set assigned before the early returns, reset deferred after them", "options with Now nil re-used after a call that failed early", "", None),
    'C07-a': ("abi checkQeReport range-checks IsvProdId twice, IsvSvn never", "message with ISVSVN = signed value + 65536", "", None),
    'C07-b': ("verbosity-2 log line sorts the identity's levels in place", "levels not in descending order at verbosity 2", "", None),
    'C08-a': ("abi parser: MrOwnerConfig sliced with the MR_CONFIG_ID offsets", "raw quote whose two fields differ", "", None),
    'C08-b': ("AnyMrTd finding dropped whenever MrTd is configured", "MrTd matches, AnyMrTd does not contain it", "", None),
    'C09-a': ("client.GetQuote trims trailing zero bytes before parsing", "quote whose last byte is the chain's NUL terminator", "(caught by C15's GetQuote == QuoteToProto(GetRawQuote) clause)", "C15"),
    'C09-b': ("signed bytes of a refused raw call stay in the options", "refused raw call, then a message call on the same options", "(caught by C12's mixed-entry-points class of round 14)", "C12"),
    'C10-a': ("CRL bodies sniffed for a PEM header; pem.Decode result used unchecked", "CRL body that starts like PEM but is no complete block", "hostile-crl: the CRL in PEM armour whole and in 12 kinds of pieces", "C10"),
    'C10-b': ("error text reads TcbLevels[len-1] of a module identity", "signed TCB Info whose matching module identity has no levels", "signed-hostile-document: every object member and array of both documents removed / nulled / emptied / replaced at every depth (1900 re-signed documents)", "C10"),
    'C11-a': ("pcs validates the optional Configuration sub-extension as exactly three flags", "PCK leaf with another number of Configuration flags", "honest worlds draw platform sub-extensions with any subset of flags; C13 platform-certificate-extension with all 16 subsets", "C11"),
    'C11-b': ("getRootCrl returns at the first distribution point whose body does not parse", "root with several distribution points, a non-DER answer in front", "new class honest-root-with-several-crl-distribution-points", "C11"),
    'C12-a': ("cache of parsed PCK extensions keyed by issuer key id + serial", "two leaves with one serial under one CA", "", None),
    'C12-b': ("default time set left behind by early failures", "options with Now nil re-used after an early failure", "", None),
    'C13-a': ("OID literals derived by append from a shared parent with spare capacity", "concurrent extractions", "", None),
    'C13-b': ("inner length check lost while folding error returns", "wrongly sized octet string that reads as a DER OCTET STRING", "", None),
    'C14-a': ("one shared SVN comparison: components 0 and 1 skipped when the quote's module version is non-zero", "minimum whose only unmet components are 0 / 1", "C14 field/minimum_tee_tcb_svn: one more / one less in exactly one component (C08 min-tee-tcb-svn-component catches it too)", "C14"),
    'C14-b': ("errSkipped sentinel ends the RTMR loop at the first empty entry", "rtmrs list with an empty entry before a mismatching one", "", None),
    'C15-a': ("aligned ABI copy of the quote header does not copy Status back", "device working through the ABI buffer with a failing status", "", None),
    'C15-b': ("deferred Close overwrites the named error", "fallback device path whose request fails", "", None),
    'C16-a': ("OID helper returns slices with spare capacity; sgxTcbComponentOid appends to the shared one", "concurrent verifications", "", None),
    'C16-b': ("failure-branch log line appends the auth data onto the quote's key slice", "parsed quote failing exactly at the key binding", "6 further snapshot subjects whose authentication data was replaced (0..4096 bytes) without rebinding", "C16"),
    'C17-a': ("extend tool hashes its input itself and calls ExtendDigest: an empty log is extended", "empty input through the tool", "new class extend-tool: the tools/extend binary in a private mount namespace with a tmpfs for configfs-tsm (51 runs: sizes to 70 MiB, file / pipe / redirected stdin, empty inputs, indexes)", "C17"),
    'C17-b': ("verbosity-2 'after' log line deferred before the checks reads the register, which creates the entry", "refused request at verbosity 2", "new class verbose/history: a third of the short histories again with the library logging at verbosity 2", "C17"),
    'C18-a': ("abi checkQeReport: IsvSvn never range-checked", "message with ISVSVN + 65536 and collateral", "(caught by C07 message-isvsvn-wider-than-signed, whose clause it is)", "C07"),
    'C18-b': ("CRLUnavailableErr treated as 'everything else was verified'", "collateral + revocation on, CRL fetch failing, forged quote", "", None),
    'C19-a': ("-check_crl / -get_collateral become boolean flags: 'flag false' leaves a positional argument that ends flag parsing", "space-separated form of these flags", "", None),
    'C19-b': ("verbose diagnostic dies with exit 1 when the chain cannot be extracted", "verbosity >= 1 + a quote whose chain is damaged", "baseline runs: damaged base64 / renamed PEM block / forged quote at verbosity 0, 1, 2", "C19"),
    'C20-a': ("SimpleHTTPSGetter sleeps for Retry-After itself", "429 / 503 with Retry-After above the cap through the production pair", "(retry/over-real-http catches it when run alone; the class's waits and C20's scripted cases now have watchdogs: a Get that does not come back is reported instead of hanging the check)", "C20"),
    'C20-b': ("'connection cut' errors retried at once, skipping wait and deadline check", "wrapped getter failing with io.ErrUnexpectedEOF forever", "runRetry gives up on a Get after timeout + 30 s and ends its goroutine from inside the wrapped getter: busy loop and hang are reported", "C20"),
}
root = os.path.join(os.path.dirname(os.path.abspath(__file__)), '..', 'seeded')
for k, (chg, needs, note, chk) in info.items():
    d = os.path.join(root, 'r15-' + k)
    prop = k.split('-')[0]
    demos = sorted(os.path.basename(f) for f in glob.glob(d + '/*_test.go'))
    det_first = 'VIOLATION' in open(d + '/first-run.log').read()
    assert det_first == (chk is None), (k, det_first)
    check = chk or prop
    m = {"id": "r15-" + k, "breaks_property": prop, "change": chg, "needs_to_manifest": needs, "origin": origin, "demonstration": demos,
         "confirmed": {"command": "tools/mutant.sh confirm seeded/r15-" + k, "compiles": True, "existing_suite_passes_with_change": True, "demo_fails_with_change": True, "demo_passes_without_change": True},
         "detected_at_first_run": det_first,
         "detected_by": {"command": "tools/mutant.sh detect seeded/r15-%s/patch.diff %s" % (k, check), "check": check,
                         "target_check_quick": "VIOLATION (exit 1)" if check == prop else "no violation (exit 0)"}}
    if check != prop:
        m["detected_by"]["other_check_quick"] = check + ": VIOLATION (exit 1)"
    if note:
        m["detected_by"]["after_strengthening"] = note
    json.dump(m, open(d + '/meta.json', 'w'), indent=1)
print(len(info))
