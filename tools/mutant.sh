#!/bin/bash
# Seeded-change tooling. Nothing here touches /repo itself: every experiment runs in a scratch git worktree of /repo under /tmp.
#   tools/mutant.sh confirm <dir>            dir holds patch.diff + demo *_test.go: confirm that the change compiles, passes the
#                                            existing suite, and that the demo fails with it and passes without it
#   tools/mutant.sh detect <patch> <ID>...   apply the patch to a scratch worktree and run the quick checks of the given
#                                            properties (default: all registered checks) against that worktree
export GOFLAGS=-mod=mod GOPROXY=off GOSUMDB=off GOTOOLCHAIN=local
cmd=$1; shift
ROOT=$(cd "$(dirname "$0")/.." && pwd)
pkgdir() { # package name -> directory
  case "$1" in
    abi|verify|validate|pcs|rtmr|client) echo "$1" ;;
    trust) echo verify/trust ;;
    main) echo tools/check ;;
    linuxabi) echo client/linuxabi ;;
    *) echo "$1" ;;
  esac
}
case "$cmd" in
confirm)
  dir=$(realpath "$1")
  wt=/tmp/mconf.$$
  git -C /repo worktree add -q --detach "$wt" HEAD || exit 2
  trap 'git -C /repo worktree remove --force "$wt" >/dev/null 2>&1' EXIT
  cd "$wt" || exit 2
  if ! git apply "$dir/patch.diff"; then echo "CONFIRM FAIL: patch does not apply"; exit 1; fi
  go build ./... >/dev/null 2>&1 || { echo "CONFIRM FAIL: does not compile"; exit 1; }
  if ! go test -vet=off -count=1 ./... > "$wt/suite.log" 2>&1; then echo "CONFIRM FAIL: existing suite fails with the change"; grep -E '^(---|FAIL|ok)' "$wt/suite.log" | head; exit 1; fi
  echo "suite passes with the change"
  demos=()
  for f in "$dir"/*_test.go; do
    [ -f "$f" ] || continue
    pkg=$(grep -m1 '^package ' "$f" | awk '{print $2}'); pkg=${pkg%_test}
    d=$(pkgdir "$pkg")
    # package main: the check tool, unless the change is about the extend tool only
    if [ "$pkg" = main ] && grep -q '^+++ b/tools/extend/' "$dir/patch.diff" && ! grep -q '^+++ b/tools/check/' "$dir/patch.diff"; then d=tools/extend; fi
    cp "$f" "$wt/$d/" ; demos+=("$d")
  done
  [ ${#demos[@]} -gt 0 ] || { echo "CONFIRM FAIL: no demo *_test.go"; exit 1; }
  race=""
  grep -qi -- '-race' "$dir/NOTES.md" 2>/dev/null && race="-race"
  failed_with=0
  for d in $(printf '%s\n' "${demos[@]}" | sort -u); do
    if ! go test $race -vet=off -count=1 "./$d/" > "$wt/demo_with.log" 2>&1; then failed_with=1; fi
  done
  [ $failed_with -eq 1 ] || { echo "CONFIRM FAIL: demo passes WITH the change"; exit 1; }
  echo "demo fails with the change"
  git apply -R "$dir/patch.diff" || exit 2
  for d in $(printf '%s\n' "${demos[@]}" | sort -u); do
    if ! go test $race -vet=off -count=1 "./$d/" > "$wt/demo_without.log" 2>&1; then echo "CONFIRM FAIL: demo fails WITHOUT the change"; tail -20 "$wt/demo_without.log"; exit 1; fi
  done
  echo "demo passes without the change"
  echo "CONFIRMED $dir"
  ;;
detect)
  patch=$(realpath "$1"); shift
  ids=("$@")
  [ ${#ids[@]} -gt 0 ] || ids=($(python3 -c "import json;print(' '.join(c['property_id'] for c in json.load(open('$ROOT/MANIFEST.json'))['checks']))"))
  wt=/tmp/mdet.$$
  git -C /repo worktree add -q --detach "$wt" HEAD || exit 2
  trap 'git -C /repo worktree remove --force "$wt" >/dev/null 2>&1' EXIT
  git -C "$wt" apply "$patch" || { echo "patch does not apply"; exit 2; }
  cd "$ROOT" || exit 2
  for id in "${ids[@]}"; do
    out=$(VERIF_REPO="$wt" VERIF_EVIDENCE_SCRATCH=1 ./check "$id" ${VERIF_TIER:-quick} 2>&1); rc=$?
    echo "$id rc=$rc $(echo "$out" | grep -E -m1 'VIOLATION|BROKEN' | cut -c1-260)"
  done
  ;;
esac
