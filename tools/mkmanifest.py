#!/usr/bin/env python3
"""Regenerates /verif/MANIFEST.json from the table below (kept valid at all times)."""
import json, os

ENV = "GOFLAGS=-mod=mod GOPROXY=off GOSUMDB=off GOTOOLCHAIN=local"
CHECKS = {
 # id: (category, technique, design_ref, text, note)
 "C01": ("exploration", "runtime monitoring: exhaustive single-bit mutation of the signed regions + one-link-broken forgeries + random mutation, judged by must-reject oracle and an independent Authentic(q) reference predicate",
         "DESIGN.md §3 C01",
         "Held on every executed case: all single-bit mutants of header, TD body, attestation key, QE report and auth data of 4+ accepted quotes must be rejected; ~45 structured forgeries that break exactly one link while everything else is re-signed with keys the harness owns must be rejected at 3 option levels through raw and message entry forms (each derived from a twin the library accepted); for signature/chain flips and random mutants 'accepted => reference says authentic'. Exhaustive only over the stated bit/class space; sound up to ECDSA unforgeability.",
         "Trusts crypto/ecdsa, crypto/x509, encoding/pem. A forged quote needing a signature the harness cannot make (2^-128) is out of reach."),
 "C02": ("exploration", "runtime monitoring: must-reject / must-accept oracles + independent path predicate over generated look-alike PKIs, role-confusion chains and root-of-trust configurations",
         "DESIGN.md §3 C02",
         "Held on every executed case: quotes that are perfectly self-consistent under a look-alike PKI (identical subject names, even identical serial and key identifier) are rejected under the configured pool; every single-element look-alike substitution and every role-confusion chain whose QE report is re-signed by the substituted certificate's key is rejected; single non-root anchors listed by the caller are honoured; every subset of 3 PKIs as bundle files / inline PEM / mixed gives 'accepted iff listed' exactly (empty configuration => embedded Intel root only; empty or non-PEM bundle => error). Sampling over generated PKIs.",
         "Trusts crypto/x509 chain building and ECDSA; the reference path predicate is deliberately weaker than x509 (no CA / path-length checks), so it can only miss, never falsely accuse."),
 "C03": ("exploration", "runtime monitoring: scripted collateral endpoint; non-replacement differential (signed-reject member + unsigned accept decoy in every arrangement), must-reject fault classes, reference verifier of the signed member",
         "DESIGN.md §3 C03",
         "Held on every executed response: for 11 kinds of genuinely signed but must-reject documents, ~60 arrangements of an unsigned accept-decoy (exact duplicates, every case / Unicode-fold variant of the key, escaped key, duplicate signature keys, evil-first superset) never turn the rejection into an acceptance; every sampled bit flip of the signed member, re-encodings, wrong-message signatures, ~15 foreign / wrong-role / wrong-issuer signer chains, wrong id/version, empty levels, missing members and malformed headers are rejected; all other mutants satisfy 'accepted => an exact-key member verifies under a TCB-signing certificate chaining to the pool and its own values pass'.",
         "Trusts ECDSA, encoding/json validity checking, and the reference top-level member scanner."),
 "C04": ("exploration", "runtime monitoring: small-scope abstraction of the TCB algorithm enumerated through the real verification path with freshly signed TCB Info, judged by a reference evaluator written from the statement",
         "DESIGN.md §3 C04",
         "Held on every executed configuration: the 1-level abstract space (SGX x PCE x TDX comparisons reduced to pass / fail-at-boundary-index x 7 statuses) is enumerated completely for TEE_TCB_SVN[1] in {0,n} with absent / omitted / wrong-id / 1-level module identities; the 2-level space is sampled (quick) or enumerated (thorough); identity-field mismatches and mask cases; random 3-6 level lists. Library accepts => reference evaluator accepts; 'no level matches' => the reporting API returns an error.",
         "Everything except the TCB Info content is honest; reference evaluator and generator share no code with the library. TEE_TCB_SVN[1] limited to 0..9 (id format)."),
 "C05": ("fault_enumeration", "runtime monitoring: exhaustive fault enumeration over revoked-serial sets x targets x CRL placement x CRL signer x endpoint outcome x option combinations, judged by independent CRL parsing + raw ECDSA",
         "DESIGN.md §3 C05",
         "Held on the whole grid: each of the four governed certificates (leaf, intermediate, TCB-Info signer, a distinct QE-Identity signer) listed alone / among 1000 / twice in the governing CRL is rejected, near-miss serials and listings in the non-governing CRL are not confused with revocation, CRLs signed by the other CA / a foreign key under the same name / a look-alike CA are rejected, every endpoint failure mode is rejected (fail closed), 1-3 distribution points with each failing prefix, and revocation without collateral always fails.",
         "Reference reads 'obtained' existentially over everything the endpoint served, so it can only be weaker than the library."),
 "C06": ("fault_enumeration", "runtime monitoring: boundary-grid fault enumeration over 14 independently dated artefact roles x 5 time-set entries, judged by must-accept/must-reject expectations and a reference expiry predicate",
         "DESIGN.md §3 C06",
         "Held on the whole grid: for each of 14 roles (five differently dated copies of one root, own copy of the intermediate in the PCK-CRL header, distinct signers) {1 s before, at, 1 s after} expiry at each governing time entry, the same around notBefore for path-validated certificates, 'only this entry past the expiry' for all 5 entries (reject iff the entry governs the role), 'all other entries past' (accept), monotonicity up to +365 d, and random window/time assignments judged by the reference.",
         "Zero time.Time entries excluded. Trusts crypto/x509 validity enforcement on validated paths."),
 "C07": ("exploration", "runtime monitoring: QE report edited and re-signed with the PCK key against freshly signed QE identities; bit-exhaustive mask tests and exhaustive 1-2 level lists judged by a reference matcher",
         "DESIGN.md §3 C07",
         "Held on every executed case: each of the 160 MISCSELECT/ATTRIBUTES bits flipped in the report is rejected when the mask covers it and accepted when it does not, identity value bits outside the mask never match, every MRSIGNER bit, ISVPRODID boundary values, wrong lengths / bad hex rejected, all 21 + 441 one- and two-level lists over {below, equal, above} x 7 statuses agree with the reference, byte-order traps for ISVSVN.",
         "Only the QE-related content varies; the rest of each world is honest and was accepted."),
 "C12": ("exploration", "runtime monitoring: recording getter + offline check of recorded verification histories against the 'fresh options' model; option-monotonicity monitor over a shared fault corpus",
         "DESIGN.md §3 C12",
         "Held on every executed world and history: for worlds drawn from all fault families, accept(coll+crl) => accept(coll) => accept(base) and crl-without-coll rejects; the recording getter saw no request with collateral off, CRL endpoints only with revocation on, the TCB-Info URL naming the FMSPC decoded independently from the leaf (incl. permuted extension elements) and the PCK-CRL URL naming platform/processor by issuer; 200+ histories of 2-6 verifications through one shared Options value give the verdicts of fresh values; one wall-clock history across a certificate expiry with Options.Now nil.",
         "The stale-default-time sub-check reads the wall clock (6 s) and degrades to inconclusive on a slow machine."),
 "C08": ("exploration", "runtime monitoring: differential comparison of policy validation with a reference policy evaluator (exact on well-formed options) over field-by-field grids and random combinations",
         "DESIGN.md §3 C08",
         "Held on every executed (quote, options) pair: for options whose entries are unset, empty or exactly sized the library accepts exactly when the reference evaluator (fixed masks restated as bit lists, little-endian SVNs) accepts; for wrongly sized entries and allowed-MR_TD lists with empty entries there is no panic and no exactly-sized expectation is missed. Grids: 9 exact fields x 10 option kinds, SVN byte-order traps, every TEE_TCB_SVN component at min-1/min/min+1, MinimumTeeTcbSvn of length 0..17, all 64 XFAM and TD_ATTRIBUTES bits on two bases, RTMR lists 0..5, allowed lists 0..4; through message and raw entry points.",
         "Quotes are unsigned (policy validation does not look at signatures)."),
 "C13": ("exploration", "runtime monitoring: the harness DER-encodes SGX extensions itself and compares the library's extraction with the generator's inputs (exact / must-error / sane classes)",
         "DESIGN.md §3 C13",
         "Held on every executed extension: all 16 x 256 component values, PCE SVN boundaries (all 65536 in the thorough tier), all 120 top-level orders, reversed / rotated / swapped / 1000+ random orders of the 18 TCB elements give exactly the encoded values; out-of-range and 9-byte integers, wrongly sized octet strings, wrong types, missing extension, every truncation, trailing bytes at each nesting level, wrong element / extension counts give an error; duplicates never yield a wrong value for an element present once. 500 cases also through really signed, re-parsed certificates.",
         "Wrong-size octet strings are generated so that they are not themselves a DER OCTET STRING of the right inner size (the code unwraps that form by design)."),
 "C15": ("fault_enumeration", "runtime monitoring: scripted recording guest device / quote provider; exhaustive device-outcome grid judged by a success predicate and request-content checks",
         "DESIGN.md §3 C15",
         "Held on the whole 3888-script grid (report outcome x quote outcome x status x OutLen x report data): success exactly when both requests succeed with result 0, status 0 and 0 < OutLen <= buffer size, returning exactly the first OutLen bytes the device wrote; the report request carries the caller's 64 bytes unchanged and the quote request the 1024-byte TD report, InLen 1024, Length = buffer size; every other outcome is an error without data or crash. Provider: supported => bytes and error value verbatim, called once; unsupported => device path tried (regular file / missing path); GetQuote == QuoteToProto(GetRawQuote).",
         "The real ioctl path of LinuxDevice is only exercised up to ENOTTY on a regular file."),
 "C16": ("exploration", "sanitizer + monitor: Go race detector over unsynchronised concurrent use of one quote, plus deterministic before/after snapshots of every reachable byte slice up to capacity",
         "DESIGN.md §3 C16",
         "Held on what was executed: (a) around each of 9 read-only API operations on 8 subjects x 3 quote forms, no byte of any slice reachable from the message, the raw input or the validation options changed, spare capacity included (parsed quotes expose ~4 KB of it; built quotes carry canaries), and parsed messages / serialised bytes share no memory with their source; (b) in a -race build 8-32 goroutines share one quote at GOMAXPROCS 2/4/16: zero race reports with a go-tdx-guest frame; (c) all concurrent verdicts equal the solo verdicts.",
         "The race detector sees only executed interleavings; it is happens-before based, so unsynchronised pairs are reported without a timing window. The check always runs the -race binary."),
 "C17": ("exploration", "runtime monitoring: model TSM client recording every directory / index / digest operation; offline checker replays each recorded history against a register model",
         "DESIGN.md §3 C17",
         "Held on every executed history: invalid requests fail without any mutating operation; valid requests produce exactly one digest write of exactly the requested digest (or SHA-384 of the log) to an entry bound to the requested index, re-using an existing entry; final registers equal the SHA-384 extend chains. All single requests over the index / length / hash alphabet, all 27,930 sequences of length <= 3 over a 30-symbol alphabet (every third in the quick tier), 2000+ random histories of length 4-12 with pre-existing entries and injected MkdirTemp / WriteFile failures.",
         "The model TSM implements the documented configfs-tsm rtmr semantics; upstream go-configfs-tsm is part of the code under observation."),
 "C14": ("exploration", "runtime monitoring: policy messages converted by the library and judged three ways (must-fail rule, reference evaluation of the message itself, directly built options) on 4 quotes each",
         "DESIGN.md §3 C14",
         "Held on every executed message: conversion fails whenever an SVN minimum exceeds 16 bits or a non-empty byte string (incl. minimum_tee_tcb_svn, RTMR and allowed-MR_TD entries) has the wrong length; every message that converts is applied to 4 quotes without panic, with the verdict of the reference evaluation of the message itself and of directly built options. Fields x {absent, empty, exact, short, long, doubled}, SVNs at 0/65535/65536/2^32-1, RTMR lists 0..5, allowed lists 0..4, nil policy and absent sub-policies, in memory and after a wire round trip.",
         "Same reference evaluator as C08."),
 "C18": ("exploration", "runtime monitoring: event-log entry point on re-signed sample quotes with gate faults and RTMR bit flips; own SHA-384 replay of the log as oracle",
         "DESIGN.md §3 C18",
         "Held on every executed case: a firmware log state is returned only when reference verification, reference policy evaluation and an own replay of the sample log (over upstream's event parser) hold for every RTMR the log measures (RTMR0-2 in the sample); every signature-chain / trust / collateral fault, every policy mismatch, every sampled single-bit change of a measured RTMR (all bits in the thorough tier) on a correctly re-signed quote, and a wrong nonce return (nil, error); the untouched twin returns a state at all three levels.",
         "One event log (the repository's sample); event-log bytes themselves are not mutated (upstream parser)."),
 "C19": ("exploration", "runtime monitoring of the rebuilt tools/check binary as a child process: reference flag/config merge + reference verification + reference policy predict the exit code; in-process PCS behind HTTPS_PROXY",
         "DESIGN.md §3 C19",
         "Held on every executed command line (~290): exit 0 only when the reference says the quote verifies under the effective options and meets the effective policy; exact exit codes for single-fault runs (13 policy fields x config {absent, matching, mismatching, malformed} x flag {same}, config shapes incl. absent sub-messages in text and binary form, input formats, bundles, network none / reachable / dead proxy / single endpoint down / OutOfDate collateral, options from config vs flags); no crash marker on stderr, no death by signal; errors.As finds the typed fetch errors in the library's result.",
         "The binary uses time.Now(); worlds are valid +-10 years. Unparsable quotes may exit 1 or 2 (README vs code)."),
 "C20": ("fault_enumeration", "runtime monitoring: scripted wrapped getter recording monotonic attempt times; attempt-count and spacing oracle with timer-lateness calibration",
         "DESIGN.md §3 C20",
         "Held on the whole grid (timeout {0, 50 ms, 300 ms, 1 s} x cap {0, 1 ms, 20 ms, 100 ms, 5 s} x k failures then success / fail forever): the first success is returned intact with no further attempt, no gap exceeds cap + slack, the attempt count is no busy loop, and failure is reported within timeout + cap + slack. The thorough tier adds the default 2 min / 30 s schedule.",
         "Upper bounds on elapsed time are wall-clock; they are asserted only when the lateness calibration stayed below slack/4 and otherwise reported inconclusive. Attempt counts are load-proof."),
 "C09": ("exploration", "runtime monitoring: differential comparison of the library parser/serialiser with an independent reference layout parser/serialiser on hostile byte strings and generated messages",
         "DESIGN.md §3 C09",
         "Held on every executed input: same acceptance set as the reference v4 layout parser, every parsed field equal to the reference slice (so a self-consistent offset swap in parser and serialiser is visible), serialise(parse(b)) == b byte for byte, exported part serialisers equal the corresponding input slices, and generated well-formed messages serialise to the reference bytes and parse back proto.Equal. Exhaustive over truncation lengths and size-field boundary grids of the sampled quotes only.",
         "Trusts the reference offset table (written from the DCAP v4 layout) and proto.Equal."),
 "C10": ("exploration", "runtime monitoring: crash monitor (recover + breadcrumb attribution of fatal errors) around every public entry point on hostile bytes, structurally mutated messages, hostile endpoint responses and hostile DER",
         "DESIGN.md §3 C10",
         "Held on every executed call: no panic and no fatal runtime error in ~15 entry points over the hostile corpus (all truncations, size-field grids, every single structural message mutation, ~100 hostile bodies/headers per endpoint slot, odd-key certificates in every certificate slot, garbage CRLs, ~4k hostile SGX-extension DER values also through really signed leaves, and the reporting API on a different message than the one verified). Says nothing about inputs not executed; hangs only via the watchdog.",
         "Every call runs inside recover(); fatal errors are attributed by replaying the breadcrumbs of in-flight inputs alone."),
 "C11": ("exploration", "runtime monitoring: must-accept oracle + independent reference verifier over generated honest worlds",
         "DESIGN.md §3 C11",
         "Held on every executed honest world: each world (fresh PKI, randomised quote shape, SVNs, level lists, masks, CRLs, five instants) is verified by the real library at 3 checking levels through 4 entry forms and must be accepted; the independent reference verifier must agree. Sampling, not proof: completeness for honest inputs is the right target because any over-strict comparison (>, off-by-one, rejected NUL/extra bytes) shows up as a rejected honest world.",
         "Trusts Go crypto/x509, encoding/pem, encoding/json and the harness's own generator; worlds are drawn by a seeded PRNG, keys are fresh per run."),
}

props = [json.loads(l) for l in open('/verif/properties.jsonl')]
checks, na = [], []
for p in props:
    i = p['id']
    if i in CHECKS:
        cat, tech, ref, text, note = CHECKS[i]
        checks.append({
            "property_id": i,
            "quick_cmd": f"./check {i} quick",
            "thorough_cmd": f"./check {i} thorough",
            "evidence_file": f"/verif/evidence/{i}.json",
            "replay_cmd_template": f"./check {i} --replay {{path}}",
            "engine": "vworker",
            "level_claimed": {"category": cat, "text": text, "design_ref": ref},
            "level_note": note,
            "technique": tech,
        })
    else:
        na.append({"property_id": i, "reason": "check not built yet (work in progress; see DESIGN.md §3 for the planned monitor)"})

m = {
 "version": 1,
 "setup_cmd": f"cd /verif/harness && {ENV} go build ./... && {ENV} go vet ./cmd/... >/dev/null 2>&1; true",
 "hooks": {
   "guard": "verif",
   "enable": "go build -tags verif (no hook is needed: every fault enters through interfaces the library already exposes)",
   "baseline_off_cmd": f"cd /repo && {ENV} go test -vet=off -count=1 ./...",
   "source_commits": [],
   "add_only": True,
 },
 "engines": [{"name": "vworker", "path": "/verif/harness/cmd/vworker", "serves_properties": sorted(CHECKS),
              "kind_free_text": "Go harness: world generator + reference oracles + monitors; runs the real library in-process (child process per check), built from /repo's working tree by ./check"}],
 "checks": checks,
 "not_applicable": na,
 "notes": "All checks are runtime monitors: the real go-tdx-guest code is executed on generated, hostile inputs and each execution is judged by an independent oracle. ./check <ID> [quick|thorough] honours VERIF_SEED and VERIF_TIER.",
}
json.dump(m, open('/verif/MANIFEST.json', 'w'), indent=1)
print("checks:", len(checks), "not_applicable:", len(na))
