#!/usr/bin/env python3
# Writes seeded/r13-*/meta.json (round 13) from the table below and the first-run logs kept next to each change.
import glob
import json
import os

origin = "round 13: independent sub-agent given only the property text and a scratch git worktree of /repo; brief: a = a feature addition with a conservative default, b = a tolerance / hardening patch reacting to a fictitious bug report; each with one mistake"
# id: (change, needs, what was added after a miss, check that detects it when it was missed at the first run)
info = {
    'C01-a': ("one-entry memo of the last verified QE report signature, recorded whatever the outcome", "the same forged quote presented twice to one options value", "", None),
    'C01-b': ("QE auth data beyond 32 bytes tolerated as padding (prefix hashed) without requiring it to be zero", "auth data longer than 32 bytes with only its first 32 bytes bound", "", None),
    'C02-a': ("memo of the PCK chain validation on Options; the stored path is not cleared when the chain changes", "honest, then the same hostile quote twice through one options value", "", None),
    'C02-b': ("clock-skew tolerance for a not-yet-valid PCK leaf: the x509 error is ignored, and with it the whole path validation", "foreign chain whose leaf becomes valid within 5 minutes", "", None),
    'C03-a': ("offline collateral option; signed member decoded in place over the loose decode", "signed member omitting a field + unsigned look-alike member", "", None),
    'C03-b': ("clock-skew tolerance for a freshly rotated TCB signing certificate drops the path validation", "foreign signer whose notBefore lies up to 5 minutes ahead", "", None),
    'C04-a': ("TcbGracePeriod option: OutOfDate tolerated while now-recovery < grace, without guards for grace 0 / future dates", "OutOfDate deciding level and tcbLevels[0].tcbDate after the verification time", "new class level-dates (7 dates x 7 statuses x platform / behind-a-newer / module level); random-levels draw future dates", "C04"),
    'C04-b': ("module identity IDs matched in decimal and hexadecimal spelling", "TEE_TCB_SVN[1] in 10..99 and a decoy identity of the colliding version", "", None),
    'C05-a': ("offline collateral: Options keeps the collateral of an earlier call", "collateral+CRL call, then GetCollateral off on the same options value", "", None),
    'C05-b': ("CRLs of CAs without cRLSign tolerated: the constraint error comes before the signature check", "CA without cRLSign key usage + CRL signed by another key", "", None),
    'C06-a': ("ChainCache: entries record only the end of validity", "shared issuer chain + QE-Identity time before the signer's notBefore", "", None),
    'C06-b': ("zero nextUpdate treated as unbounded, also for TCB Info / QE Identity", "signed document whose nextUpdate is the year 1 (any spelling) or absent", "new class next-update-zero-instant (6 spellings, member absent / null; 3 instants; 2 levels)", "C06"),
    'C07-a': ("WorstAcceptedTcbStatus policy: a status missing from the severity table ranks as UpToDate", "QE identity level without tcbStatus", "", None),
    'C07-b': ("ISVSVN range hardening narrows the LEVEL's isvsvn to 16 bits", "identity level with isvsvn >= 65536", "", None),
    'C08-a': ("AnyMrSeam feature: single value and list folded into one set (union instead of intersection) also for MR_TD", "MrTd and AnyMrTd both configured, the quote meets only one", "", None),
    'C08-b': ("measurements given as hex text accepted; a decode error yields an empty value = unset", "wrongly sized printable option not starting with two hex digits", "option kinds given as text: hex (lower / upper / 0x / 0X), algorithm-prefixed, placeholder, letters, base64, colon-separated", "C08"),
    'C09-a': ("ParseOptions.Envelope: the zero value is auto-detect", "a quote behind a 24-byte GetQuote buffer header", "new corpus class enveloped (GetQuote buffer, QGS messages, length prefixes, text encodings, serialised message)", "C09"),
    'C09-b': ("explanatory error for platform-identifier certification data slices by the DECLARED size", "inner type 1..3 with a declared size above what is there", "new corpus class inner-type-and-size (11 types x 12 actual x 15 declared sizes); the crash is C10's finding, C09 ends as a broken run (floor on compared inputs)", "C10"),
    'C10-a': ("SEAM attributes checked against the matching module identity; size check on the wrong mask", "identity whose attributesMask is longer than 8 bytes", "", None),
    'C10-b': ("Retry-After honoured inside SimpleHTTPSGetter; the HTTP-date form is not clamped", "429/503 with a Retry-After date far ahead, production getter", "hostile-response-over-real-http: failure statuses x 13 Retry-After values (seconds, absurd, dates ahead / past, other date formats), plain and retrying getter; the class stops at the first call that does not come back", "C10"),
    'C11-a': ("context support: the retry budget context is handed to each attempt", "RetryHTTPSGetter with Timeout 0 / tiny around the production getter", "honest-over-real-http with retry budgets 0 / negative / 1 ns", "C11"),
    'C11-b': ("every chain certificate looked up in every CRL by bare serial number", "a serial revoked by the other CA that equals a chain certificate's", "", None),
    'C12-a': ("ClockSkew option; with revocation on the issuer-certificate table is replaced instead of extended", "TCB Info / QE Identity header carrying an expired earlier issue of the root", "the shared corpus (anyWorld) gained headers carrying expired earlier issues of the root / the CRL signer; C06's expiry grid catches it too", "C12"),
    'C12-b': ("unset members of a caller's TimeSet filled in place with the current time", "partly set TimeSet re-used across an expiry", "", None),
    'C13-a': ("shared attribute parser returns ENUMERATED as int64", "SVN encoded as ENUMERATED", "", None),
    'C13-b': ("CPUSVN wrapped in a second OCTET STRING tolerated without re-checking the inner size", "wrongly sized CPUSVN whose contents read as a DER OCTET STRING", "cpusvn-wrong-size: contents 04 len ... of 0..30 inner bytes, two nested; the 16-byte look-alike stays exact", "C13"),
    'C14-a': ("index for allow-lists of 64+ entries checks entry length through copy()'s return value", "list of 64+ entries with an entry longer than 48 bytes", "long lists with one wrongly sized entry (49 / 96 bytes, MR_TD plus more, 1..8 bytes) first / middle / last", "C14"),
    'C14-b': ("error message previews entry[:8] of a wrongly sized entry", "list entry of 1..7 bytes in a tight slice", "list entries of 1 / 3 / 5 / 7 bytes", "C14"),
    'C15-a': ("QGS wire format: the response side recognises a QGS message by content, whatever the flag says", "buffer contents framed as a GET_QUOTE_RESP message", "new class successful-request-with-structured-contents (QGS messages of several versions / types / error codes, length prefixes, text)", "C15"),
    'C15-b': ("EINTR restarts: after 4 interrupted attempts a shadowed result returns (0, nil)", "a request failing with EINTR every time", "new class request-fails-with-errno (14 error values x report / quote request)", "C15"),
    'C16-a': ("short REPORT_DATA expectation zero-extended by append() on the caller's slice", "ReportData option of 1..63 bytes with capacity >= 64", "", None),
    'C16-b': ("NUL terminators behind every certificate removed by compacting the quote's own chain in place", "PCK chain with a NUL followed by other bytes", "9 further snapshot subjects whose chain is not quite a chain (NULs behind every certificate / between / inside a line, leading, CR LF, blank lines)", "C16"),
    'C17-a': ("streaming event-log API caps at 16 MiB with io.LimitReader", "event log longer than 16 MiB", "", None),
    'C17-b': ("digest equal to SHA-384 of the empty input refused", "that digest", "digests with a meaning of their own (SHA-384 / SHA3-384 of nothing, of one zero byte, all zero, all ones, ASCII) as single requests and in a history", "C17"),
    'C18-a': ("last verified quote remembered; the policy is remembered by pointer", "policy edited in place between two calls with the same quote", "", None),
    'C18-b': ("CRL outage tolerated: CRLUnavailableErr swallowed, and with it the whole verification", "collateral + revocation on, CRL endpoint down, forged quote", "", None),
    'C19-a': ("relative CA bundle paths looked up next to the config file - after the flag was merged in", "-config elsewhere + relative -trusted_roots + same-named file next to the config", "new class relative-paths (tool run with a working directory; right / wrong / no file next to the config)", "C19"),
    'C19-b': ("numeric flags parsed with base 0: a leading zero means octal", "-minimum_*_svn=010 style values", "", None),
    'C20-a': ("context support: Timeout bounds the first attempt", "Timeout <= 0 or shorter than one attempt, wrapped getter context-aware", "retry/over-real-http: first attempt succeeds with budgets 0 / negative / 1 ns", "C20"),
    'C20-b': ("Retry-After honoured without clamping to MaxRetryDelay", "failing status with a large Retry-After through the production getter", "", None),
}
root = os.path.join(os.path.dirname(os.path.abspath(__file__)), '..', 'seeded')
for k, (chg, needs, note, chk) in info.items():
    d = os.path.join(root, 'r13-' + k)
    prop = k.split('-')[0]
    demos = sorted(os.path.basename(f) for f in glob.glob(d + '/*_test.go'))
    det_first = 'VIOLATION' in open(d + '/first-run.log').read()
    assert det_first == (chk is None), (k, det_first)
    check = chk or prop
    m = {"id": "r13-" + k, "breaks_property": prop, "change": chg, "needs_to_manifest": needs, "origin": origin, "demonstration": demos,
         "confirmed": {"command": "tools/mutant.sh confirm seeded/r13-" + k, "compiles": True, "existing_suite_passes_with_change": True, "demo_fails_with_change": True, "demo_passes_without_change": True},
         "detected_at_first_run": det_first,
         "detected_by": {"command": "tools/mutant.sh detect seeded/r13-%s/patch.diff %s" % (k, check), "check": check,
                         "target_check_quick": "VIOLATION (exit 1)" if check == prop else "BROKEN-RUN (exit 2): every panicking input lowers the count of compared inputs below the floor"}}
    if check != prop:
        m["detected_by"]["other_check_quick"] = check + ": VIOLATION (exit 1)"
    if note:
        m["detected_by"]["after_strengthening"] = note
    json.dump(m, open(d + '/meta.json', 'w'), indent=1)
print(len(info))
